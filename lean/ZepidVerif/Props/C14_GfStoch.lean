/-
C14, tie to the source: the definition regenerated on every run from the text of `TimeFixedGFormula.fit_stochastic`
(`Gen/GfStoch.lean`: assembly of the treated set from the draws of each condition in listing order, assignment of
treatment by membership, prediction at the assigned treatment, NaN-ing and dropping of rows with a missing outcome when
`predict_missing=False`, the target-restricted (weighted) mean of each resample, the mean over `samples`; the `size=`
handed to `np.random.choice`) computes the model `gfAssign` / `mcMean` / `meanOf` / `planSize` the theorems
`gf_p_one_zero`, `gf_assign_order_free`, `mc_mixture_realised`, `mc_average_mixture` of `Props/C14.lean` are about;
they are restated here about the generated code itself.  The draws stay an oracle (parameters).
-/
import ZepidVerif.Props.C14
import ZepidVerif.Lemmas.GfStochBridge
set_option linter.unusedSectionVars false
set_option linter.unusedVariables false
namespace ZV.P14
open ZV ZV.Std ZV.Stoch

variable {F : Type} [Field F] [LinearOrder F] [IsStrictOrderedRing F] [Transc F]

/-- the rows a resample's mean runs over: the standardization target, with an observed outcome unless
    `predict_missing` -/
def gfTarget (t : Tgt) (pm : Bool) : Row F → Bool := fun r => t.mem r && (pm || r.obs)

/-- **Tie to the source.**  `Gen.gf_stoch_fit`, regenerated from the text of `TimeFixedGFormula.fit_stochastic`, returns
    the mean over the resamples of the model's `mcMean` at the assignment `gfAssign` of each resample's draws.
    (One draw per resample for an unconditional plan, at most one per listed pair otherwise.) -/
theorem gf_stoch_fit_generated (hasCond hasWeights pm : Bool) (t : Tgt) (ps : List F) (conditional : List (Nat → Bool))
    (l : List (Row F)) (Q : Row F → Bool → F) (draws : List (List (List Nat)))
    (hw : hasWeights = false → ∀ r ∈ l, r.w = 1)
    (hlen : ∀ d ∈ draws, d.length ≤ (if hasCond then (List.zip conditional ps).length else 1)) :
    Gen.gf_stoch_fit hasCond hasWeights pm t.str ps conditional l Q draws
      = meanOf (draws.map fun d => mcMean l Q (fun q => q) (gfTarget t pm) (fun r => gfAssign d r.i)) :=
  gf_stoch_fit_eq hasCond hasWeights pm t ps conditional l Q draws hw hlen

/-- the `size=` argument of both `np.random.choice` calls, regenerated from their text, is the model's `planSize`
    (`int(p · n)`) -/
theorem gf_stoch_size_generated (fl : F → Nat) (p : F) (n : Nat) :
    Gen.gf_stoch_size_uncond fl p n = planSize fl p n ∧ Gen.gf_stoch_size_cond fl p n = planSize fl p n :=
  ⟨rfl, rfl⟩

/-- **`gf_assign_order_free` about the generated code**: listing the (condition, p) pairs in another order — every
    resample meets the same draws, attached to their conditions, in the permuted order — leaves the estimate unchanged. -/
theorem gf_order_free_generated (hasWeights pm : Bool) (t : Tgt) (ps₁ ps₂ : List F) (c₁ c₂ : List (Nat → Bool))
    (l : List (Row F)) (Q : Row F → Bool → F) (draws : List (List (List Nat))) (σ : List (List Nat) → List (List Nat))
    (hσ : ∀ d ∈ draws, (σ d).Perm d)
    (hw : hasWeights = false → ∀ r ∈ l, r.w = 1)
    (h₁ : ∀ d ∈ draws, d.length ≤ (List.zip c₁ ps₁).length) (h₂ : ∀ d ∈ draws, d.length ≤ (List.zip c₂ ps₂).length) :
    Gen.gf_stoch_fit true hasWeights pm t.str ps₂ c₂ l Q (draws.map σ)
      = Gen.gf_stoch_fit true hasWeights pm t.str ps₁ c₁ l Q draws := by
  rw [gf_stoch_fit_eq true hasWeights pm t ps₁ c₁ l Q draws hw (by simpa using h₁),
    gf_stoch_fit_eq true hasWeights pm t ps₂ c₂ l Q (draws.map σ) hw]
  · rw [List.map_map]
    congr 1
    apply List.map_congr_left
    intro d hd
    simp only [Function.comp]
    congr 1
    funext r
    exact gf_assign_order_free (σ d) d (hσ d hd) r.i
  · intro d hd
    obtain ⟨d', hd', rfl⟩ := List.mem_map.mp hd
    simpa [(hσ d' hd').length_eq] using h₂ d' hd'

/-- **`gf_p_one_zero` about the generated code**: every pool is covered by a well-formed draw of
    `np.random.choice(pool, size=int(p·|pool|), replace=False)` with p = 1 (p = 0) in every resample ⇒ the value the
    regenerated `fit_stochastic` returns is the deterministic g-formula `fit('all')` (`fit('none')`) over the same rows. -/
theorem gf_p_one_zero_generated (fl : F → Nat) (hfl : ∀ n : Nat, fl (n : F) = n) (hasCond hasWeights pm : Bool) (t : Tgt)
    (ps : List F) (conditional : List (Nat → Bool)) (l : List (Row F)) (Q : Row F → Bool → F)
    (res : List (List (List Nat × List Nat))) (hne : res ≠ [])
    (hw : hasWeights = false → ∀ r ∈ l, r.w = 1)
    (hlen : ∀ d ∈ res, d.length ≤ (if hasCond then (List.zip conditional ps).length else 1))
    (hcover : ∀ d ∈ res, ∀ r ∈ l, ∃ x ∈ d, r.i ∈ x.1) :
    ((∀ d ∈ res, ∀ x ∈ d, DrawOK fl 1 x.1 x.2) →
      Gen.gf_stoch_fit hasCond hasWeights pm t.str ps conditional l Q (res.map fun d => d.map (·.2))
        = gformula l Q (gfTarget t pm) true) ∧
    ((∀ d ∈ res, ∀ x ∈ d, DrawOK fl 0 x.1 x.2) →
      Gen.gf_stoch_fit hasCond hasWeights pm t.str ps conditional l Q (res.map fun d => d.map (·.2))
        = gformula l Q (gfTarget t pm) false) := by
  have hb := gf_stoch_fit_eq hasCond hasWeights pm t ps conditional l Q (res.map fun d => d.map (·.2)) hw
    (by intro d hd; obtain ⟨d', hd', rfl⟩ := List.mem_map.mp hd; simpa using hlen d' hd')
  have hm : 0 < res.length := List.length_pos_iff.mpr hne
  have hconst : ∀ (c : F) (f : List (List Nat × List Nat) → F), (∀ d ∈ res, f d = c) →
      meanOf (res.map f) = c := by
    intro c f h
    have : res.map f = List.replicate res.length c := by
      apply List.ext_getElem (by simp)
      intro i h1 h2
      simp [h _ (List.getElem_mem _)]
    rw [this, meanOf_replicate _ hm]
  rw [hb, List.map_map]
  constructor
  · intro hd
    apply hconst
    intro d hdm
    exact ((gf_p_one_zero fl hfl l Q (gfTarget t pm) d (hcover d hdm) 1 Nat.one_pos).2.1 (hd d hdm)).1
  · intro hd
    apply hconst
    intro d hdm
    exact ((gf_p_one_zero fl hfl l Q (gfTarget t pm) d (hcover d hdm) 1 Nat.one_pos).2.2 (hd d hdm)).1

/-- **`mc_mixture_realised` + `mc_average_mixture` about the generated code**: saturated outcome model, positivity ⇒
    for ANY draws the value the regenerated `fit_stochastic` returns is the standardized mixture evaluated at the
    realised treated fractions of the strata, averaged over the resamples — an exact identity in the captured draws;
    its distance to the mixture at the nominal `p_s` is the whole Monte-Carlo error. -/
theorem mc_average_mixture_generated (hasCond hasWeights pm : Bool) (t : Tgt) (ps : List F)
    (conditional : List (Nat → Bool)) (l : List (Row F)) (S : List Nat) (hS : Strata l S) (hpos : Positivity l S)
    (Q : Nat → Bool → F) (hQ : OutFit l S Q) (hN : ∀ s ∈ S, Ntgt (gfTarget t pm) l s ≠ 0)
    (draws : List (List (List Nat))) (hne : draws ≠ [])
    (hw : hasWeights = false → ∀ r ∈ l, r.w = 1)
    (hlen : ∀ d ∈ draws, d.length ≤ (if hasCond then (List.zip conditional ps).length else 1)) :
    Gen.gf_stoch_fit hasCond hasWeights pm t.str ps conditional l (fun r => Q r.s) draws
      = mixture l S (gfTarget t pm)
          (fun s => meanOf (draws.map fun d => realised l (gfTarget t pm) (fun r => gfAssign d r.i) s)) := by
  rw [gf_stoch_fit_eq hasCond hasWeights pm t ps conditional l (fun r => Q r.s) draws hw hlen]
  have h1 : (draws.map fun d => mcMean l (fun r => Q r.s) (fun q => q) (gfTarget t pm) (fun r => gfAssign d r.i))
      = (draws.map fun d => realised l (gfTarget t pm) (fun r => gfAssign d r.i)).map (mixture l S (gfTarget t pm)) := by
    rw [List.map_map]
    apply List.map_congr_left
    intro d _
    exact mc_mixture_realised l S hS hpos Q hQ (gfTarget t pm) hN _
  rw [show (fun d => mcMean l (fun r => Q r.s) (fun q => q) (fun r => t.mem r && (pm || r.obs)) (fun r => gfAssign d r.i))
        = (fun d => mcMean l (fun r => Q r.s) (fun q => q) (gfTarget t pm) (fun r => gfAssign d r.i)) from rfl, h1,
    mc_average_mixture l S (gfTarget t pm) _ (by simpa using hne)]
  congr 1
  funext s
  rw [List.map_map]
  rfl

end ZV.P14

/-! ### The hypotheses are satisfiable; the generated code runs -/
namespace ZV.P14
open ZV ZV.Std ZV.Stoch
local instance transcRatGfStoch : Transc ℚ := ⟨id, id, id⟩

def exQ : Row ℚ → Bool → ℚ := fun r a => if r.s = 0 then (if a then 1/3 else 1) else (if a then 1 else 1/4)
/-- two resamples of a two-condition plan on `exRows` (conditions = strata): {0,2} and {4}; {1} and {3,5} -/
def exDraws : List (List (List Nat)) := [[[0, 2], [4]], [[1], [3, 5]]]

example : ∀ d ∈ exDraws, d.length ≤ (List.zip [fun i => i < 3, fun i => 3 ≤ i] [(1/2 : ℚ), 1/3]).length := by decide
-- the generated code executed: weighted, both options of predict_missing, population and exposed targets
example : Gen.gf_stoch_fit true true true "population" [(1/2 : ℚ), 1/3] [fun i => i < 3, fun i => 3 ≤ i] exRows exQ exDraws
      = ((4 * (1/2 * (1/3) + 1/2 * 1) + 5 * (3/5 * 1 + 2/5 * (1/4))) / 9
          + (4 * (1/2 * (1/3) + 1/2 * 1) + 5 * (2/5 * 1 + 3/5 * (1/4))) / 9) / 2 := by decide +kernel
example : Gen.gf_stoch_fit true true true "population" [(1/2 : ℚ), 1/3] [fun i => i < 3, fun i => 3 ≤ i] exRows exQ exDraws
      = meanOf (exDraws.map fun d => mcMean exRows exQ (fun q => q) (gfTarget .pop true) (fun r => gfAssign d r.i)) := by
  decide +kernel
-- permuted listing: the same draws, attached to their conditions, in the other order
example : Gen.gf_stoch_fit true true false "exposed" [(1/3 : ℚ), 1/2] [fun i => 3 ≤ i, fun i => i < 3] exRows exQ
      (exDraws.map List.reverse)
    = Gen.gf_stoch_fit true true false "exposed" [(1/2 : ℚ), 1/3] [fun i => i < 3, fun i => 3 ≤ i] exRows exQ exDraws := by
  decide +kernel
-- unconditional plan, p = 1: every row drawn in each of two resamples = fit('all')
example : Gen.gf_stoch_fit false true true "population" [] [] exRows exQ [[[3, 1, 0, 5, 2, 4]], [[0, 1, 2, 3, 4, 5]]]
    = gformula exRows exQ (gfTarget .pop true) true := by decide +kernel
-- hypotheses of `gf_p_one_zero_generated` (every row is in a pool) and of `mc_average_mixture_generated` (every stratum has
-- target weight) on `exRows`
example : ∀ d ∈ [[(([0, 1, 2, 3, 4, 5] : List Nat), ([3, 1, 0, 5, 2, 4] : List Nat))]], ∀ r ∈ exRows, ∃ x ∈ d, r.i ∈ x.1 := by
  decide
example : ∀ s ∈ [0, 1], Ntgt (gfTarget Tgt.pop true) exRows s ≠ 0 ∧ Ntgt (gfTarget Tgt.exposed false) exRows s ≠ 0 := by
  decide +kernel
example : DrawOK (fun q : ℚ => ⌊q⌋.toNat) 1 [0, 1, 2, 3, 4, 5] [3, 1, 0, 5, 2, 4] := by
  refine ⟨by decide, by decide, by simp [planSize]⟩
example : Gen.gf_stoch_size_cond (fun q : ℚ => ⌊q⌋.toNat) (1/3) 5 = 1 := by
  simp [Gen.gf_stoch_size_cond]; norm_num [Int.floor_eq_iff]

end ZV.P14
