/-
C05, tie to the source (IPMW): the definitions regenerated on every run from the text of `zepid/causal/ipw/IPMW.py`
(`Gen/Ipmw.lean`) — `_monotone_variables` from the initial products on (the loop over the listed variables with its
`continue` for a variable uniformly missing with its predecessor, the multiplication of the predictions into the two
running products, the final `np.where(observed on the last variable, product, NaN)` lines), `_single_variable` (the
single-variable case and the uniform collapse) and the ratio of `fit` — compute the model's `Ipmw.weight` /
`rowWeight` the theorems `ipmw_monotone`, `ipmw_unobserved_none`, `ipmw_recovers_n` of `Props/C05.lean` are about;
those theorems are restated here about the generated code.

What stays hand-modelled: `regression_models`' dispatch (single / monotone / overall-uniform; `_check_monotone`,
`_check_overall_uniform`, `_check_uniform` are models of pandas expressions), the calls of `propensity_score` and the
frames they are given (the fitting plan: theorem `ipmw_fit_sets`, observed by gate K), the padding of the model lists.
-/
import ZepidVerif.Props.C05
import ZepidVerif.Lemmas.IpmwBridge
set_option linter.unusedSectionVars false
set_option linter.unusedVariables false
namespace ZV.P05
open ZV ZV.Ipmw

variable {F : Type} [Field F] [LinearOrder F] [IsStrictOrderedRing F] [Transc F]

/-- the weight of a row as the regenerated code computes it: `_single_variable` when the listed variables are missing
    on the same rows (`regression_models`' collapse), else `_monotone_variables`; then `fit` -/
def genRowWeight (l : List MRow) (k : Nat) (stab : Bool) (n d : Nat → Nat → Option F) (r : MRow) : Option F :=
  if overallUniform l k then Gen.ipmw_single_weight stab n d r
  else Gen.ipmw_monotone_weight stab k (pairUniform l) n d r

/-- **Tie to the source.**  The regenerated `_monotone_variables` + `fit` is the model's `weight` along the fitted variables
    (the first, and every later one not uniformly missing with its predecessor) with the last variable deciding who
    is observed; the regenerated `_single_variable` + `fit` is the model's `weight` of variable 0; hence `genRowWeight`
    is the model's `rowWeight`. -/
theorem ipmw_weight_generated (l : List MRow) (k : Nat) (stab : Bool) (n d : Nat → Nat → Option F) (r : MRow) :
    Gen.ipmw_monotone_weight stab k (pairUniform l) n d r = weight stab (fitted l k) (k - 1) n d r ∧
    Gen.ipmw_single_weight stab n d r = weight stab [0] 0 n d r ∧
    genRowWeight l k stab n d r = rowWeight l k stab n d r := by
  refine ⟨ipmw_monotone_weight_eq l k stab n d r, ipmw_single_weight_eq stab n d r, ?_⟩
  unfold genRowWeight rowWeight
  rw [ipmw_monotone_weight_eq, ipmw_single_weight_eq]

/-- **`ipmw_monotone` about the generated code**: monotone data; for a row observed on the last variable whose fitted
    conditional observation probabilities are numbers `dv j` (`nv j`), with probability 1 wherever a variable is
    uniformly missing with its predecessor, the regenerated code returns the numerator over the product of all `k`
    conditional observation probabilities. -/
theorem ipmw_monotone_generated (l : List MRow) (k : Nat) (hk : 0 < k) (hm : Monotone l k) (stab : Bool)
    (n d : Nat → Nat → Option F) (r : MRow) (hr : r ∈ l) (hobs : obsAt r (k - 1) = true) (dv nv : Nat → F)
    (hd : ∀ j < k, d j r.i = some (dv j)) (hn : stab = true → ∀ j < k, n j r.i = some (nv j))
    (hskip : ∀ j, 0 < j → j < k → pairUniform l j = true → dv j = 1 ∧ nv j = 1) :
    genRowWeight l k stab n d r
      = some ((if stab then ((List.range k).map nv).prod else 1) / ((List.range k).map dv).prod) := by
  rw [(ipmw_weight_generated l k stab n d r).2.2]
  exact ipmw_monotone l k hk hm stab n d r hr hobs dv nv hd hn hskip

/-- a row not observed on the last variable gets NaN from the regenerated code -/
theorem ipmw_unobserved_none_generated (l : List MRow) (k : Nat) (hk : 0 < k) (stab : Bool)
    (n d : Nat → Nat → Option F) (r : MRow) (hr : r ∈ l) (hobs : obsAt r (k - 1) = false) :
    genRowWeight l k stab n d r = none := by
  rw [(ipmw_weight_generated l k stab n d r).2.2]
  exact ipmw_unobserved_none l k hk stab n d r hr hobs

/-- **`ipmw_recovers_n` about the generated code**: saturated conditional models (score equations), every stratum has
    somebody observed on every variable ⇒ the unstabilized weights the regenerated code gives the rows observed on the
    last variable sum to the number of rows. -/
theorem ipmw_recovers_n_generated (l : List MRow) (k : Nat) (hk : 0 < k) (hm : Monotone l k)
    (S : List Nat) (hS : S.Nodup) (str : MRow → Nat) (hstr : ∀ r ∈ l, str r ∈ S)
    (δ : Nat → Nat → F) (n d : Nat → Nat → Option F) (hd : ∀ r ∈ l, ∀ j < k, d j r.i = some (δ j (str r)))
    (hfit0 : ∀ s ∈ S, δ 0 s * cntS l str s = cntObs l str 0 s)
    (hfit : ∀ s ∈ S, ∀ j, 0 < j → j < k → δ j s * cntObs l str (j - 1) s = cntObs l str j s)
    (hpos : ∀ s ∈ S, ∀ j < k, cntObs (F := F) l str j s ≠ 0) :
    sumBy (fun r => (genRowWeight l k false n d r).getD 0) l = (l.length : F) := by
  rw [sumBy_congr (fun r _ => by rw [(ipmw_weight_generated l k false n d r).2.2] :
    ∀ r ∈ l, (genRowWeight l k false n d r).getD 0 = (rowWeight l k false n d r).getD 0)]
  exact ipmw_recovers_n l k hk hm S hS str hstr δ n d hd hfit0 hfit hpos

end ZV.P05

/-! ### The generated code runs -/
namespace ZV.P05
open ZV ZV.Ipmw
local instance transcRatC05Ipmw : Transc ℚ := ⟨id, id, id⟩

-- the monotone pattern `exM` of `Props/C05.lean` (not uniform): weights 1/(3/4 · 2/3) for the rows observed on both
example : exM.map (genRowWeight exM 2 false exD exD) = [some 2, some 2, none, none] ∧
    exM.map (genRowWeight exM 2 true exD exD) = [some 1, some 1, none, none] ∧
    (ipmw exM 2 false exD exD).toOption.map (·.weights) = some (exM.map (genRowWeight exM 2 false exD exD)) := by
  decide +kernel
-- the uniform pattern `exU`: collapse to the first variable (one factor 3/4); a NaN prediction gives a NaN weight
example : overallUniform exU 2 = true ∧ exU.map (genRowWeight exU 2 false exD exD) = [some (4/3), none, some (4/3)] ∧
    genRowWeight exM 2 false exD (fun j i => if j = 1 ∧ i = 0 then none else exD j i) ⟨0, [true, true]⟩ = none := by
  decide +kernel

end ZV.P05
